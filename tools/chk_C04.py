"""C04  Every silent corruption of synced data or parity is detected and located."""
import os, shutil, vlib, e2e, sim, fixcommon as fx
from concurrent.futures import ThreadPoolExecutor

STATIC_THEOREMS = [
    'SnapraidVerif.Props.C04.detect_data',
    'SnapraidVerif.Props.C04.data_error_only_if_changed',
    'SnapraidVerif.Props.C04.detect_parity',
    'SnapraidVerif.Props.C04.no_false_alarm',
    'SnapraidVerif.Props.C04.bad_marks_exact',
]

def scenario(exe, root, seed, stats):
    rng = e2e.Rng(seed)
    a, s = fx.build_array(exe, root, rng, weird=rng.chance(1, 2))
    if a is None:
        shutil.rmtree(root, ignore_errors=True); return None
    N = a.nparity
    # hash migration in progress (sometimes): rehash, then convert only part of the array
    migrating = False
    if rng.chance(1, 3):
        r = a.cmd('rehash')
        if r.rc == 0:
            a.cmd('scrub', '-p', '40', '-o', '0')
            migrating = True
    dec = fx.decode(a)
    lay = fx.Layout(a, dec)
    if not lay.blocks:
        a.destroy(); return None      # history ended with an empty array: nothing to damage
    cfg = 'ndisks=%d nparity=%d zmode=%s hashsize=%d splits=%d migrating=%s seed=%d' % (a.ndisks, N, a.zmode, a.hashsize, a.splits, migrating, seed)
    backup = root + '.bak'
    shutil.copytree(a.root, backup, symlinks=True)
    out = []
    def fail(msg, desc, res):
        out.append(('(%s) %s' % (cfg, msg), 'config: %s\ndamage:\n%s\nproblem: %s\ntags:\n%s\nhistory:\n%s' % (
            cfg, '\n'.join(desc[:40]), msg, '\n'.join(t for t in res.tags if t.split(':')[0] in ('error', 'parity_error', 'summary', 'status', 'entry'))[:3000], '\n'.join(s.history))))
    # --- the undamaged twin must be silent
    for cmd, args in (('check', ['-a']), ('check', []), ('scrub', ['-p', 'full'])):
        r = a.cmd(cmd, *args)
        stats['clean_runs'] += 1
        de, pe = fx.err_tags(r)
        if r.rc != 0 or de or pe:
            fail('%s %s on the undamaged array reports errors / exits %d' % (cmd, ' '.join(args), r.rc), [], r)
    bad, _ = fx.bad_blocks(a)
    if bad:
        fail('undamaged array has stripes marked bad: %s' % sorted(bad)[:5], [], r)
    if out:
        shutil.rmtree(backup, ignore_errors=True); a.destroy(); return out
    # --- damaged variants
    stripes_with_files = sorted(lay.by_pos)
    for rep in range(3):
        shutil.rmtree(a.root); shutil.copytree(backup, a.root, symlinks=True)
        desc, exp_data, exp_par = [], set(), set()
        mode = rng.choice(['one', 'few', 'per-stripe<=N'])
        picks = []
        if mode == 'one':
            if rng.chance(2, 3) and lay.blocks:
                picks.append(('d', rng.choice(lay.blocks)))
            elif stripes_with_files:
                picks.append(('p', (rng.below(N), rng.choice(stripes_with_files))))
        elif mode == 'few':
            for _ in range(1 + rng.below(3)):
                if lay.blocks: picks.append(('d', rng.choice(lay.blocks)))
        else:
            for pos in stripes_with_files:
                k = rng.below(N + 1)
                cand = [('d', b) for b in lay.by_pos[pos]] + [('p', (l, pos)) for l in range(N)]
                chosen = []
                while len(chosen) < min(k, len(cand)):
                    c = rng.choice(cand)
                    if c not in chosen: chosen.append(c)
                picks += chosen
        per_stripe = {}
        for t, x in picks:
            if t == 'd':
                if (x['pos'], x['disk'], x['sub']) in exp_data: continue
                if fx.flip_data_block(a, rng, x):
                    exp_data.add((x['pos'], x['disk'], x['sub'])); per_stripe[x['pos']] = per_stripe.get(x['pos'], 0) + 1
                    desc.append('stripe %d: %s/%r block %d silently changed' % (x['pos'], x['disk'], x['sub'], x['idx']))
            else:
                l, pos = x
                if (pos, l) in exp_par: continue
                if fx.flip_parity_block(a, rng, l, pos):
                    exp_par.add((pos, l)); per_stripe[pos] = per_stripe.get(pos, 0) + 1
                    desc.append('stripe %d: parity level %d silently changed' % (pos, l))
        if not exp_data and not exp_par:
            continue
        locatable = all(v <= N for v in per_stripe.values())
        stats['damaged_blocks'] += len(exp_data) + len(exp_par)
        stats['modes'][mode] = stats['modes'].get(mode, 0) + 1
        levname = lambda l: e2e.LEV_NAMES[l]
        exp_par_named = set((pos, levname(l)) for pos, l in exp_par)
        # check -a: data only
        r = a.cmd('check', '-a'); stats['runs'] += 1
        de, pe = fx.err_tags(r)
        if de != exp_data:
            fail('check -a reports data errors %s, damaged are %s' % (sorted(de ^ exp_data)[:3], len(exp_data)), desc, r)
        if (r.rc != 0) != bool(exp_data):
            fail('check -a exit status %d with %d damaged data blocks' % (r.rc, len(exp_data)), desc, r)
        # full check
        r = a.cmd('check'); stats['runs'] += 1
        de, pe = fx.err_tags(r)
        if de != exp_data:
            fail('check reports data errors %s (symmetric difference), damaged are %d' % (sorted(de ^ exp_data)[:3], len(exp_data)), desc, r)
        if locatable and pe != exp_par_named:
            fail('check reports parity errors %s (symmetric difference) for damaged parity blocks %s' % (sorted(pe ^ exp_par_named)[:3], sorted(exp_par_named)[:3]), desc, r)
        if r.rc == 0:
            fail('check exits 0 although blocks are damaged', desc, r)
        # scrub with a plan covering everything
        plan = rng.choice([['-p', 'full'], ['-p', '100', '-o', '0']])
        r = a.cmd('scrub', *plan); stats['runs'] += 1
        de, pe = fx.err_tags(r)
        if de != exp_data:
            fail('scrub %s reports data errors %s (symmetric difference)' % (plan[1], sorted(de ^ exp_data)[:3]), desc, r)
        # scrub does not reconstruct data, so in a stripe that also has a damaged data block it names
        # the data error only (the stripe is still marked bad): parity levels are expected for stripes
        # whose data is intact
        data_stripes = set(p for p, _, _ in exp_data)
        exp_par_scrub = set((p, l) for p, l in exp_par_named if p not in data_stripes)
        if pe != exp_par_scrub:
            fail('scrub %s reports parity errors %s (symmetric difference)' % (plan[1], sorted(pe ^ exp_par_scrub)[:3]), desc, r)
        if r.rc == 0:
            fail('scrub exits 0 although blocks are damaged', desc, r)
        bad, st = fx.bad_blocks(a)
        exp_bad = set(p for p, _, _ in exp_data) | set(p for p, _ in exp_par)
        if bad != exp_bad:
            fail('stripes marked bad %s, damaged stripes %s' % (sorted(bad)[:8], sorted(exp_bad)[:8]), desc, st)
        # a second pass over the same damage must name exactly the same blocks (nothing recorded by the
        # first scrub may change what is reported) ...
        r = a.cmd('check', '-a'); stats['runs'] += 1
        de, pe = fx.err_tags(r)
        if de != exp_data:
            fail('check -a after the scrub reports data errors %s (symmetric difference with the damaged blocks)' % (sorted(de ^ exp_data)[:3],), desc, r)
        # ... and once the original bytes are back, scrub -p bad must verify the marked stripes, clear the marks and exit 0
        for d in a.disks:
            shutil.rmtree(a.ddir(d)); shutil.copytree(os.path.join(backup, d), a.ddir(d), symlinks=True)
        shutil.rmtree(os.path.join(a.root, 'par')); shutil.copytree(os.path.join(backup, 'par'), os.path.join(a.root, 'par'))
        r = a.cmd('scrub', '-p', 'bad'); stats['runs'] += 1
        de, pe = fx.err_tags(r)
        if r.rc != 0 or de or pe:
            fail('after restoring the original bytes scrub -p bad still reports errors %s %s / exits %d' % (sorted(de)[:2], sorted(pe)[:2], r.rc), desc, r)
        bad, st = fx.bad_blocks(a)
        if bad:
            fail('after restoring the original bytes and scrub -p bad, stripes %s stay marked bad' % sorted(bad)[:5], desc, st)
        if out:
            break
    # --- silent errors next to files changed since the last sync: in a stripe where another disk holds a block of
    # an unsynced file (touched or edited after the sync), a silent error of a synced file is still a data error:
    # reported at its own position/disk/file and the stripe marked bad; stripes whose only differences come from
    # the unsynced files are not marked (C15), whatever the disk order and the arrival order of the readers
    if not out and lay.blocks:
        shutil.rmtree(a.root); shutil.copytree(backup, a.root, symlinks=True)
        files = sorted(set((b['disk'], b['sub']) for b in lay.blocks))
        unsynced = set()
        for (d, sub) in files:
            if rng.chance(1, 3):
                p = a.path(d, os.fsdecode(sub)); st = os.lstat(p)
                if rng.chance(1, 2):
                    os.utime(p, ns=(st.st_atime_ns, st.st_mtime_ns + 1_000_000_007))       # time-stamp only
                else:
                    with open(p, 'r+b') as f:
                        b0 = f.read(1); f.seek(0); f.write(bytes([b0[0] ^ 0x21]) if b0 else b'')
                    os.utime(p, ns=(st.st_atime_ns, st.st_mtime_ns + 2_000_000_011))
                unsynced.add((d, sub))
        desc = ['%s/%r changed since the last sync' % x for x in sorted(unsynced)]
        cand = [b for b in lay.blocks if (b['disk'], b['sub']) not in unsynced]
        exp = set()
        for _ in range(1 + rng.below(3)):
            if not cand: break
            x = rng.choice(cand)
            if (x['pos'], x['disk'], x['sub']) in exp: continue
            if fx.flip_data_block(a, rng, x):
                exp.add((x['pos'], x['disk'], x['sub'])); desc.append('stripe %d: %s/%r block %d silently changed' % (x['pos'], x['disk'], x['sub'], x['idx']))
        if exp and unsynced:
            cache = rng.choice([[], ['--test-io-cache=1'], ['--test-io-cache=3']])
            r = a.cmd('scrub', '-p', 'full', *cache); stats['runs'] += 1
            stats['unsynced_neighbour_runs'] = stats.get('unsynced_neighbour_runs', 0) + 1
            de, pe = fx.err_tags(r)
            de_synced = set(x for x in de if (x[1], x[2]) not in unsynced)
            if de_synced != exp:
                fail('[unsynced-neighbour] scrub %s names data errors %s (symmetric difference) among the synced files' % (' '.join(cache), sorted(de_synced ^ exp)[:3]), desc, r)
            bad, st = fx.bad_blocks(a)
            need = set(p for p, _, _ in exp)
            if not need <= bad:
                fail('[unsynced-neighbour] scrub %s does not mark bad the stripes %s that hold a silent error of a synced file (other disks hold blocks of files changed since the sync)' % (' '.join(cache), sorted(need - bad)[:5]), desc, st)
            spurious = bad - need
            if spurious:
                fail('[unsynced-neighbour] scrub %s marks bad the stripes %s whose only differences come from files changed since the last sync' % (' '.join(cache), sorted(spurious)[:5]), desc, st)
    shutil.rmtree(backup, ignore_errors=True)
    a.destroy()
    return out or None

def big_file(exe, root, seed):
    """blocks of a data file BEYOND the 4 GiB offset (first past the boundary, a middle one, the last partial one): a sparse
    file of 4 GiB + 2 blocks + 1000 bytes with 16 MiB blocks; only the stripes around the boundary are synced and checked
    (-S/-B), so nothing large is read or written.  A changed byte there (size and time-stamp kept) must be reported at its
    own position by check -a, check and scrub; an undamaged array raises nothing"""
    rng = e2e.Rng(seed)
    kib = 16384
    a = e2e.Arr(root, exe, ndisks=2, nparity=1, block_kib=kib, ncontent=1)
    bs = a.block
    nb = (1 << 32) // bs                    # index of the first block past 4 GiB
    p = a.path('d1', 'big.bin')
    with open(p, 'wb') as f:
        for b in [0, 1, 2, nb - 1, nb, nb + 1, nb + 2]:
            f.seek(b * bs); f.write(rng.bytes(64))
        f.truncate((nb + 2) * bs + 1000)
    os.utime(p, ns=(1_600_000_000_000_000_777, 1_600_000_000_000_000_777))
    a.write('d2', 'small.bin', rng.bytes(3000), 1_600_000_001_000_000_777)
    rngargs = ['-S', str(nb - 1), '-B', '4']
    r = a.cmd('sync', *rngargs, timeout=300)
    if r.rc != 0:
        a.destroy(); return None      # no room for the parity file here: nothing claimed
    c0 = a.cmd('check', '-a', *rngargs, timeout=300)
    problem = None
    if c0.rc != 0:
        problem = '[beyond-4GiB] check -a of the undamaged range exits %d' % c0.rc
    else:
        victims = [nb, nb + 1, nb + 2]
        st = os.stat(p)
        with open(p, 'r+b') as f:
            for b in victims:
                off = b * bs + (500 if b == nb + 2 else 17)
                f.seek(off); c = f.read(1); f.seek(off); f.write(bytes([c[0] ^ 0x21]))
        os.utime(p, ns=(st.st_mtime_ns, st.st_mtime_ns))
        for cmd, args in (('check', ['-a']), ('check', []), ('scrub', ['-p', 'full'])):
            extra = rngargs if cmd == 'check' else []
            if cmd == 'scrub': continue      # scrub has no range option: it would read the whole 4 GiB; check covers the read path
            c = a.cmd(cmd, *args, *extra, timeout=300)
            found = set()
            for t in c.tags:
                q = t.split(':')
                if q[0] == 'error' and len(q) > 3 and q[2] == 'd1' and 'big.bin' in q[3]: found.add(int(q[1]))
            missing = [b for b in victims if b not in found]
            if c.rc == 0 or missing:
                problem = '[beyond-4GiB] %s %s: changed bytes in blocks %s of d1/big.bin (offsets past 4 GiB, block size %d MiB) - exit %d, blocks reported %s, NOT reported %s' % (cmd, ' '.join(args), victims, kib // 1024, c.rc, sorted(found), missing)
                break
    a.destroy()
    return (problem, problem) if problem else None

def main(tier, seed):
    chk = vlib.Check('C04', 'proof', tier, seed)
    chk.assumptions = ['stripe-level theorems with explicit HashSep; the real read path (O_DIRECT modes, reader threads) and status listing are tied by E2E-DETECT only',
                       'parity errors are located exactly only when the stripe has at most N damaged blocks (otherwise only detection and failing status are required)']
    ok, log = vlib.ensure_lean_built()
    chk.oblig('lake build', ok, log[-300:])
    hits = vlib.forbidden_tokens()
    chk.oblig('no sorry/admit/axiom/native_decide in library', not hits, '; '.join(hits))
    okA, ax, out = vlib.axioms_audit(STATIC_THEOREMS, ['SnapraidVerif.Props.C04'])
    chk.axioms.update(ax)
    for t in STATIC_THEOREMS:
        chk.oblig('axiom audit: ' + t, ax.get(t) is not None and all(x in vlib.STD_AXIOMS for x in ax[t]), str(ax.get(t)))
    try:
        exe = vlib.build_snapraid()
    except vlib.BuildError as e:
        chk.violation('build of /repo failed: ' + str(e)[:300], str(e), False, 'build'); chk.finish()
    n = 64 if tier == 'quick' else 600
    stats = {'runs': 0, 'clean_runs': 0, 'damaged_blocks': 0, 'modes': {}}
    def job(i):
        return scenario(exe, os.path.join(vlib.scratch(), 'd%d' % i), seed * 100000 + 20000 + i, stats)
    with ThreadPoolExecutor(vlib.NCPU) as ex:
        res = list(ex.map(job, range(n)))
    bf = big_file(exe, os.path.join(vlib.scratch(), 'big'), seed * 100000 + 29000)
    stats['big_file'] = 'violation' if bf else 'ok'
    if bf:
        chk.violation('C04 ' + bf[0], bf[1], True, 'bigfile')
    k = 0
    for r in res:
        if r:
            k += 1
            if k <= 3:
                chk.violation('C04 ' + r[0][0], r[0][1], True, 'detect')
    for o in chk.obligations:
        if not o[1]:
            chk.violation('C04 static obligation failed: ' + o[0], o[0] + '\n' + o[2], False, 'static')
    chk.evaluations = stats['runs'] + stats['clean_runs']
    chk.distinct = stats['damaged_blocks']
    chk.rule = ('%d seeded synced arrays (incl. hash migration in progress in 1/3, reduced hash sizes, z-mode, split parity); undamaged twin: check -a / check / scrub must be silent and mark nothing; 3 damage sets each (one block; a few data blocks; per-stripe <= N blocks mixing data and parity; shapes bit/byte/block/zero, mtime kept): the sets of error:<pos>:<disk>:<file> and parity_error:<pos>:<level> tags of check -a, check and scrub (full / 100%%) must EQUAL the damaged blocks, exit status must fail, and the stripes marked bad in status must equal the damaged stripes. distinct_nontrivial = damaged blocks; plus one directed sparse file with blocks beyond the 4 GiB offset (16 MiB blocks, ranged sync and check)' % n)
    chk.samples = [dict(stats)]
    chk.corr['E2E-DETECT'] = dict(stats)
    chk.finish()

def replay(path):
    print(open(path).read()[:8000]); return 0
